import MageModel.Fn.Json
/-!
`json.Marshal` of an argument list is injective on lists of one shape: two `mg.F` values over the same function
(hence the same parameter kinds) get the same identity only if their arguments are equal.
-/
namespace MageModel.Fn.Json

/-! ### generic: a run of "inside" characters ends at the first "outside" character -/
theorem split_unique {P : Char → Prop} (l l' : List Char) (t t' : Char) (r r' : List Char)
    (hl : ∀ c ∈ l, P c) (hl' : ∀ c ∈ l', P c) (ht : ¬ P t) (ht' : ¬ P t')
    (h : l ++ t :: r = l' ++ t' :: r') : l = l' ∧ t = t' ∧ r = r' := by
  induction l generalizing l' with
  | nil =>
    cases l' with
    | nil => simp at h; exact ⟨rfl, h.1, h.2⟩
    | cons c cs =>
      simp at h
      exact absurd (h.1 ▸ hl' c (by simp)) ht
  | cons a as ih =>
    cases l' with
    | nil =>
      simp at h
      exact absurd (h.1 ▸ hl a (by simp)) ht'
    | cons c cs =>
      simp at h
      obtain ⟨r1, r2, r3⟩ := ih cs (fun x hx => hl x (by simp [hx])) (fun x hx => hl' x (by simp [hx])) h.2
      exact ⟨by rw [h.1, r1], r2, r3⟩

/-! ### integers -/
def IntCh (c : Char) : Prop := c = '-' ∨ c.isDigit = true

theorem toDigits_inj (a b : Nat) (h : Nat.toDigits 10 a = Nat.toDigits 10 b) : a = b := by
  have := congrArg (fun l => Nat.ofDigitChars 10 l 0) h
  simpa [Nat.ofDigitChars_ten_toDigits] using this

theorem toDigits_isDigit (n : Nat) : ∀ c ∈ Nat.toDigits 10 n, c.isDigit = true :=
  fun _ hc => Nat.isDigit_of_mem_toDigits (by omega) (by omega) hc

theorem intChars_class (i : Int) : ∀ c ∈ intChars i, IntCh c := by
  intro c hc
  unfold intChars at hc
  split at hc
  · rcases List.mem_cons.mp hc with h | h
    · exact Or.inl h
    · exact Or.inr (toDigits_isDigit _ c h)
  · exact Or.inr (toDigits_isDigit _ c hc)

theorem intChars_inj (i j : Int) (h : intChars i = intChars j) : i = j := by
  unfold intChars at h
  have hne : ∀ n, ∀ rest, Nat.toDigits 10 n ≠ '-' :: rest := by
    intro n rest he
    have := toDigits_isDigit n '-' (by rw [he]; simp)
    revert this; decide
  split at h <;> split at h
  · have := toDigits_inj _ _ (List.cons.inj h).2
    omega
  · exact absurd h.symm (hne _ _)
  · exact absurd h (hne _ _)
  · have := toDigits_inj _ _ h
    omega

/-! ### strings: the escaping can be undone, reading up to the first unescaped quote -/
def hexVal (c : Char) : Nat := if c.isDigit then c.toNat - 48 else c.toNat - 87

def unesc : List Char → List Char → Option (List Char × List Char)
  | [], _ => none
  | c :: rest, acc =>
    if c = '"' then some (acc.reverse, rest)
    else if c = '\\' then
      match rest with
      | 'u' :: a :: b :: x :: y :: rest' =>
        unesc rest' (Char.ofNat (4096 * hexVal a + 256 * hexVal b + 16 * hexVal x + hexVal y) :: acc)
      | e :: rest' =>
        unesc rest' ((if e = 'b' then '\x08' else if e = 'f' then '\x0c' else if e = 'n' then '\n'
                      else if e = 'r' then '\r' else if e = 't' then '\t' else e) :: acc)
      | [] => none
    else unesc rest (c :: acc)

theorem unesc_quote (rest acc : List Char) : unesc ('"' :: rest) acc = some (acc.reverse, rest) := by
  rw [unesc.eq_def]; simp
theorem unesc_plain (c : Char) (rest acc : List Char) (h1 : c ≠ '"') (h2 : c ≠ '\\') :
    unesc (c :: rest) acc = unesc rest (c :: acc) := by
  rw [unesc.eq_def]; simp [h1, h2]
theorem unesc_u (a b x y : Char) (rest acc : List Char) :
    unesc ('\\' :: 'u' :: a :: b :: x :: y :: rest) acc =
      unesc rest (Char.ofNat (4096 * hexVal a + 256 * hexVal b + 16 * hexVal x + hexVal y) :: acc) := by
  rw [unesc]; simp
theorem unesc_short (e : Char) (rest acc : List Char) (he : e ≠ 'u') :
    unesc ('\\' :: e :: rest) acc =
      unesc rest ((if e = 'b' then '\x08' else if e = 'f' then '\x0c' else if e = 'n' then '\n'
                      else if e = 'r' then '\r' else if e = 't' then '\t' else e) :: acc) := by
  rw [unesc.eq_def]
  simp only [show ('\\' : Char) ≠ '"' from by decide, if_false, if_true]
  split
  · rename_i h; simp only [List.cons.injEq] at h; exact absurd h.1 he
  · rename_i h; simp only [List.cons.injEq] at h; rw [← h.1, ← h.2]
  · rename_i h; cases h
theorem hexVal_hexDigit (n : Nat) (h : n < 16) : hexVal (hexDigit n) = n := by
  have : ∀ m, m < 16 → hexVal (hexDigit m) = m := by decide
  exact this n h

theorem unesc_escChar (c : Char) (tail acc : List Char) : unesc (escChar c ++ tail) acc = unesc tail (c :: acc) := by
  unfold escChar
  split
  · rename_i h; subst h; simp [unesc_short]
  split
  · rename_i h; subst h; simp [unesc_short]
  split
  · rename_i h; subst h; simp [unesc_short]
  split
  · rename_i h; subst h; simp [unesc_short]
  split
  · rename_i h; subst h; simp [unesc_short]
  split
  · rename_i h; subst h; simp [unesc_short]
  split
  · rename_i h; subst h; simp [unesc_short]
  split
  · rename_i hc
    -- \u00XY: the character is below 0x40, its two hex digits give it back
    have hlt : c.toNat < 64 := by
      rcases hc with h | h | h | h
      · omega
      · subst h; decide
      · subst h; decide
      · subst h; decide
    have hv : 4096 * hexVal '0' + 256 * hexVal '0' + 16 * hexVal (hexDigit (c.toNat / 16)) + hexVal (hexDigit (c.toNat % 16)) = c.toNat := by
      rw [hexVal_hexDigit _ (by omega), hexVal_hexDigit _ (by omega)]
      have : hexVal '0' = 0 := by decide
      rw [this]; omega
    simp only [List.cons_append, List.nil_append, unesc_u, hv, Char.ofNat_toNat]
  split
  · rename_i h; subst h
    have : Char.ofNat (4096 * hexVal '2' + 256 * hexVal '0' + 16 * hexVal '2' + hexVal '8') = '\u2028' := by decide
    simp only [List.cons_append, List.nil_append, unesc_u, this]
  split
  · rename_i h; subst h
    have : Char.ofNat (4096 * hexVal '2' + 256 * hexVal '0' + 16 * hexVal '2' + hexVal '9') = '\u2029' := by decide
    simp only [List.cons_append, List.nil_append, unesc_u, this]
  · rename_i hq hb _ _ _ _ _ _ _ _
    simp only [List.cons_append, List.nil_append]
    exact unesc_plain c tail acc hq hb

theorem unesc_escape (s tail acc : List Char) : unesc (escape s ++ '"' :: tail) acc = some (acc.reverse ++ s, tail) := by
  induction s generalizing acc with
  | nil => simp [escape, unesc_quote]
  | cons c cs ih =>
    have : escape (c :: cs) = escChar c ++ escape cs := by simp [escape]
    rw [this, List.append_assoc, unesc_escChar, ih]
    simp

/-! ### one element, followed by a separator -/
def Sep (t : Char) : Prop := t = ',' ∨ t = ']'

theorem sep_not_intCh (t : Char) (h : Sep t) : ¬ IntCh t := by
  rcases h with rfl | rfl <;> (intro hh; rcases hh with h | h <;> revert h <;> decide)

theorem elem_split (v v' : Arg) (hk : v.kind = v'.kind) (t t' : Char) (ht : Sep t) (ht' : Sep t') (r r' : List Char)
    (h : encArg v ++ t :: r = encArg v' ++ t' :: r') : v = v' ∧ t = t' ∧ r = r' := by
  cases v with
  | int i =>
    cases v' with
    | int j =>
      obtain ⟨h1, h2, h3⟩ := split_unique (P := IntCh) _ _ t t' r r' (intChars_class i) (intChars_class j)
        (sep_not_intCh t ht) (sep_not_intCh t' ht') h
      exact ⟨by rw [intChars_inj i j h1], h2, h3⟩
    | dur _ => cases hk
    | bool _ => cases hk
    | str _ => cases hk
  | dur i =>
    cases v' with
    | dur j =>
      obtain ⟨h1, h2, h3⟩ := split_unique (P := IntCh) _ _ t t' r r' (intChars_class i) (intChars_class j)
        (sep_not_intCh t ht) (sep_not_intCh t' ht') h
      exact ⟨by rw [intChars_inj i j h1], h2, h3⟩
    | int _ => cases hk
    | bool _ => cases hk
    | str _ => cases hk
  | bool b =>
    cases v' with
    | bool b' =>
      have hcls : ∀ (x : Bool), ∀ c ∈ encArg (.bool x), c.isAlpha = true := by
        intro x c hc; cases x <;> (simp [encArg] at hc; rcases hc with h | h | h | h | h <;> (try subst h) <;> first | decide | (rcases h with h | h <;> subst h <;> decide))
      have hsep : ∀ t, Sep t → ¬ (t.isAlpha = true) := by
        intro t ht; rcases ht with rfl | rfl <;> decide
      obtain ⟨h1, h2, h3⟩ := split_unique (P := fun c => c.isAlpha = true) _ _ t t' r r' (hcls b) (hcls b') (hsep t ht) (hsep t' ht') h
      refine ⟨?_, h2, h3⟩
      cases b <;> cases b' <;> first | rfl | (simp [encArg] at h1)
    | int _ => cases hk
    | dur _ => cases hk
    | str _ => cases hk
  | str s =>
    cases v' with
    | str s' =>
      simp only [encArg, List.cons_append, List.append_assoc, List.cons.injEq, true_and, List.nil_append] at h
      have h1 := unesc_escape s (t :: r) []
      have h2 := unesc_escape s' (t' :: r') []
      rw [h] at h1
      rw [h1] at h2
      simp only [List.reverse_nil, List.nil_append, Option.some.injEq, Prod.mk.injEq, List.cons.injEq] at h2
      exact ⟨by rw [h2.1], h2.2.1, h2.2.2⟩
    | int _ => cases hk
    | dur _ => cases hk
    | bool _ => cases hk

/-! ### lists -/
theorem encElems_inj (a b : List Arg) (hk : a.map Arg.kind = b.map Arg.kind) (r r' : List Char)
    (h : encElems a ++ ']' :: r = encElems b ++ ']' :: r') : a = b ∧ r = r' := by
  induction a generalizing b with
  | nil =>
    cases b with
    | nil => simp [encElems] at h; exact ⟨rfl, h⟩
    | cons y ys => simp at hk
  | cons x xs ih =>
    cases b with
    | nil => simp at hk
    | cons y ys =>
      simp only [List.map_cons, List.cons.injEq] at hk
      cases xs with
      | nil =>
        cases ys with
        | nil =>
          simp only [encElems] at h
          obtain ⟨h1, _, h3⟩ := elem_split x y hk.1 ']' ']' (Or.inr rfl) (Or.inr rfl) r r' h
          exact ⟨by rw [h1], h3⟩
        | cons y2 ys2 => simp at hk
      | cons x2 xs2 =>
        cases ys with
        | nil => simp at hk
        | cons y2 ys2 =>
          simp only [encElems, List.append_assoc, List.cons_append] at h
          obtain ⟨h1, _, h3⟩ := elem_split x y hk.1 ',' ',' (Or.inl rfl) (Or.inl rfl) _ _ h
          obtain ⟨h4, h5⟩ := ih (y2 :: ys2) hk.2 h3
          exact ⟨by rw [h1, h4], h5⟩

/-- **`json.Marshal` is injective on argument lists of one shape** (valid UTF-8 strings): equal identities, equal
arguments. -/
theorem encList_inj (a b : List Arg) (hk : a.map Arg.kind = b.map Arg.kind) (h : encList a = encList b) : a = b := by
  unfold encList at h
  have h' : encElems a ++ [']'] = encElems b ++ [']'] := (List.cons.inj h).2
  exact (encElems_inj a b hk [] [] h').1

/-- and the converse is trivial: the identity is a function of the arguments -/
theorem encList_congr (a b : List Arg) (h : a = b) : encList a = encList b := by rw [h]

example : encList [.int (-12), .str "a\"<\n é".toList, .bool true, .dur 1500000000] =
    "[-12,\"a\\\"\\u003c\\n é\",true,1500000000]".toList := by decide
/-- different kinds can collide (an int and a duration print alike) — which is why the shape hypothesis is there; for
one function the kinds are fixed by its signature (checkF demands exact types) -/
example : encList [.int 5] = encList [.dur 5] := by decide

end MageModel.Fn.Json
