/-
The identity of an `mg.F` value is `json.Marshal(args)` (mg/fn.go:38) next to the function's name.  This file
transcribes `encoding/json` for the four supported argument kinds at the level of Unicode characters (Go strings
that are valid UTF-8; what Marshal does to invalid bytes — replacing them by U+FFFD — is the known finding
C14:invalid-utf8-arg and outside this model):
  int, time.Duration → decimal;  bool → true / false;
  string → quoted, with  \" \\ \b \f \n \r \t,  \u00XX for the other controls and for < > &,     .
-/
namespace MageModel.Fn.Json

inductive Arg where
  | int (i : Int) | dur (ns : Int) | bool (b : Bool) | str (s : List Char)
  deriving DecidableEq, Repr

inductive Kind where | int | dur | bool | str
  deriving DecidableEq, Repr

def Arg.kind : Arg → Kind
  | .int _ => .int | .dur _ => .dur | .bool _ => .bool | .str _ => .str

/-- `strconv.AppendInt(_, i, 10)` -/
def intChars (i : Int) : List Char :=
  if i < 0 then '-' :: Nat.toDigits 10 (-i).toNat else Nat.toDigits 10 i.toNat

def hexDigit (n : Nat) : Char := if n < 10 then Char.ofNat (48 + n) else Char.ofNat (87 + n)

/-- one character of a string, as `appendString` (escapeHTML = true) writes it -/
def escChar (c : Char) : List Char :=
  if c = '"' then ['\\', '"'] else if c = '\\' then ['\\', '\\']
  else if c = '\x08' then ['\\', 'b'] else if c = '\x0c' then ['\\', 'f']
  else if c = '\n' then ['\\', 'n'] else if c = '\r' then ['\\', 'r'] else if c = '\t' then ['\\', 't']
  else if c.toNat < 0x20 ∨ c = '<' ∨ c = '>' ∨ c = '&' then
    ['\\', 'u', '0', '0', hexDigit (c.toNat / 16), hexDigit (c.toNat % 16)]
  else if c = ' ' then ['\\', 'u', '2', '0', '2', '8']
  else if c = ' ' then ['\\', 'u', '2', '0', '2', '9']
  else [c]

def escape (s : List Char) : List Char := s.flatMap escChar

def encArg : Arg → List Char
  | .int i => intChars i
  | .dur d => intChars d
  | .bool b => if b then "true".toList else "false".toList
  | .str s => '"' :: escape s ++ ['"']

/-- elements separated by commas (no brackets) -/
def encElems : List Arg → List Char
  | [] => []
  | [a] => encArg a
  | a :: b :: rest => encArg a ++ ',' :: encElems (b :: rest)

/-- `json.Marshal(args)` for a non-nil argument slice -/
def encList (l : List Arg) : List Char := '[' :: encElems l ++ [']']

end MageModel.Fn.Json
