import MageModel.Fn.Spec
/-! Index-level characterisation of the two loops of `checkF`. -/
namespace MageModel.Fn

theorem checkParams_ok_iff (s : Sig) (m i : Nat) :
    checkParams s m i = .ok () ↔ ∀ j, i ≤ j → j < i + m → ∃ t, paramTy s j = some t ∧ t.supported = true := by
  induction m generalizing i with
  | zero => simp [checkParams]; intro j h1 h2; omega
  | succ m ih =>
    simp only [checkParams]
    cases hp : paramTy s i with
    | none =>
      simp only []
      constructor
      · intro h; cases h
      · intro h; obtain ⟨t, ht, _⟩ := h i (Nat.le_refl _) (by omega); rw [hp] at ht; cases ht
    | some t =>
      simp only []
      by_cases hs : t.supported = true
      · simp only [hs, if_true]
        rw [ih]
        constructor
        · intro h j h1 h2
          by_cases hj : j = i
          · subst hj; exact ⟨t, hp, hs⟩
          · exact h j (by omega) (by omega)
        · intro h j h1 h2; exact h j (by omega) (by omega)
      · simp only [hs]
        constructor
        · intro h; cases h
        · intro h; obtain ⟨t', ht', hs'⟩ := h i (Nat.le_refl _) (by omega)
          rw [hp] at ht'; cases ht'; exact absurd hs' hs

theorem checkParams_no_panic (s : Sig) (m i : Nat) (h : ∀ j, i ≤ j → j < i + m → (paramTy s j).isSome) :
    checkParams s m i ≠ .error .reflectPanic := by
  induction m generalizing i with
  | zero => simp [checkParams]
  | succ m ih =>
    simp only [checkParams]
    cases hp : paramTy s i with
    | none => have := h i (Nat.le_refl _) (by omega); rw [hp] at this; cases this
    | some t =>
      simp only []
      split
      · exact ih (i+1) (fun j h1 h2 => h j (by omega) (by omega))
      · intro hh; cases hh

theorem checkArgs_ok_iff (s : Sig) (x : Nat) (args : List ArgTy) (hx : x ≤ s.ins.length - 1) :
    checkArgs s x args = .ok () ↔
      ∀ k, k < args.length → ∃ t, paramTy s (min (x + k) (s.ins.length - 1)) = some t ∧ t.supported = true ∧
        args[k]? = some (some t) := by
  induction args generalizing x with
  | nil => simp [checkArgs]
  | cons a rest ih =>
    simp only [checkArgs]
    have hmin0 : min (x + 0) (s.ins.length - 1) = x := by simp; omega
    cases hp : paramTy s x with
    | none =>
      simp only []
      constructor
      · intro h; cases h
      · intro h; obtain ⟨t, ht, _⟩ := h 0 (by simp); rw [hmin0, hp] at ht; cases ht
    | some t =>
      simp only []
      by_cases hs : t.supported = true
      · simp only [hs, Bool.not_true, Bool.false_eq_true, if_false]
        by_cases ha : a = some t
        · subst ha
          simp only [ne_eq, not_true_eq_false, if_false]
          have hx' : (if x < s.ins.length - 1 then x + 1 else x) ≤ s.ins.length - 1 := by split <;> omega
          rw [ih _ hx']
          have hshift : ∀ k, min ((if x < s.ins.length - 1 then x + 1 else x) + k) (s.ins.length - 1) =
              min (x + (k + 1)) (s.ins.length - 1) := by
            intro k; split <;> omega
          constructor
          · intro h k hk
            cases k with
            | zero => exact ⟨t, by rw [hmin0]; exact hp, hs, by simp⟩
            | succ k =>
              obtain ⟨t', h1, h2, h3⟩ := h k (by simp at hk; omega)
              exact ⟨t', by rw [← hshift]; exact h1, h2, by simpa using h3⟩
          · intro h k hk
            obtain ⟨t', h1, h2, h3⟩ := h (k+1) (by simp; omega)
            exact ⟨t', by rw [hshift]; exact h1, h2, by simpa using h3⟩
        · simp only [ne_eq, ha, not_false_eq_true, if_true]
          constructor
          · intro h; cases h
          · intro h
            obtain ⟨t', h1, _, h3⟩ := h 0 (by simp)
            rw [hmin0, hp] at h1; cases h1
            simp at h3; exact absurd h3 ha
      · simp only [hs, Bool.not_false, if_true]
        constructor
        · intro h; cases h
        · intro h
          obtain ⟨t', h1, h2, _⟩ := h 0 (by simp)
          rw [hmin0, hp] at h1; cases h1; exact absurd h2 hs

theorem checkArgs_no_panic (s : Sig) (x : Nat) (args : List ArgTy) (hx : x ≤ s.ins.length - 1)
    (h : ∀ j, x ≤ j → j ≤ s.ins.length - 1 → (paramTy s j).isSome) :
    checkArgs s x args ≠ .error .reflectPanic := by
  induction args generalizing x with
  | nil => simp [checkArgs]
  | cons a rest ih =>
    simp only [checkArgs]
    cases hp : paramTy s x with
    | none => have := h x (Nat.le_refl _) hx; rw [hp] at this; cases this
    | some t =>
      simp only []
      split
      · intro hh; cases hh
      · split
        · intro hh; cases hh
        · apply ih
          · split <;> omega
          · intro j h1 h2; apply h j _ h2; split at h1 <;> omega

end MageModel.Fn
